#!/usr/bin/env python3
"""Regenerates /verif/MANIFEST.json from the table below (kept valid at all times)."""
import json, os, subprocess
V = os.path.dirname(os.path.dirname(os.path.abspath(__file__)))
props = [json.loads(l) for l in open(os.path.join(V, "properties.jsonl"))]

CLAIMED = {
 "C14": dict(
  text="Coq theorem C14_ring_refines_fifo: for every element type, initial capacity >= 1 and operation sequence, the transcription of ringbuffer.go returns what a list queue returns (plus no-out-of-bounds, Len counting, Pop/PopN clauses); tied to the code by running thousands of generated histories on ringbuffer.RingBuffer and on the model inside Coq (vm_compute) and by evaluating the FIFO specification on the implementation's results.",
  note="Trusted: Coq kernel + vm_compute; hand transcription Ring.v checked against the code by differential execution on generated histories only; mutex/atomics modelled as atomic sections (the interleaving part of C14 rests on that); no axioms.",
  tech="Rocq/Coq proof of refinement to a list FIFO + in-Coq differential execution against the Go code", ref="DESIGN.md 6 (C14)"),
 "C01": dict(
  text="Coq theorems C01_conservation / C01_program_order / C01_exactly_once_in_order over the interleaving model of actor/inbox.go (any number of senders and messages, any batch bound, every schedule): delivered ++ dropped ++ inflight ++ queue = push order in every reachable state; at quiescence delivered = pushed and each sender's messages are in program order; the queue is the ring of C14. Tie: the real inbox.go is run under a deterministic scheduler (all schedules of small configurations, random walks of larger ones), every kept execution is replayed step by step in the model and every terminal observation is judged by oracle_c01.",
  note="Trusted: Coq kernel + vm_compute; model Inbox.v is hand-written, tied by lock-step replay of explored schedules; sync/atomic modelled as sequentially consistent steps; routing through Engine.send/Registry and process.Invoke's in-order iteration are covered by the C04/C05 checks, not by this theorem.",
  tech="Rocq/Coq inductive invariants over an interleaving model + schedule replay of the real inbox.go under a deterministic scheduler", ref="DESIGN.md 6 (C01)"),
 "C02": dict(
  text="Coq theorems C02_token_invariant / C02_receive_mutex / C02_handoff: in every reachable state of the inbox model at most one thread is inside Invoke, the processing token (status=running) has exactly one owner, and a worker is created only by a successful CAS idle->running. Tie: schedule exploration of the real inbox.go with an overlap detector in the recording Processer, replayed in the model.",
  note="Trusted as C01. The hypothesis 'at most one Start and no Start after Stop' is necessary (Example two_workers_if_restarted) and is what the repaired process.go guarantees (dead flag); happens-before between regions is argued from the CAS chain, the Go memory model itself is not modelled.",
  tech="Rocq/Coq inductive token invariant + schedule exploration with overlap oracle", ref="DESIGN.md 6 (C02)"),
 "C03": dict(
  text="Coq theorems C03_wakeup_invariant (idle with a non-empty queue implies a pending kicker), C03_quiescent_is_drained, C03_terminates (the step relation is well-founded: a lexicographic measure decreases on every step, so every maximal run under any scheduler is finite) and C03_every_run_drains. Tie: exhaustive schedule enumeration of the real inbox.go for small configurations; every terminal state must be idle with an empty queue and everything invoked; executions replayed in the model.",
  note="Trusted as C01; that the Go scheduler eventually runs a runnable goroutine is assumed (the theorem needs no fairness beyond that).",
  tech="Rocq/Coq wake-up invariant + well-founded measure (termination without fairness) + exhaustive schedule enumeration of the real code", ref="DESIGN.md 6 (C03)"),
}

CLAIMED.update({
 "C15": dict(
  text="Coq theorems C15_roundtrip / C15_same_count_order_target_sender_payload / C15_unserialisable_dropped_alone over the statement-level model of streamWriter.Invoke (table construction) and streamReader.Receive: for every batch, decode (encode b) delivers exactly the serialisable messages, in order, each with its own target, sender (none stays none), type and payload. Tie: the real writer and reader are driven around a fake dRPC stream (real vtproto Envelope encoding) on thousands of generated batches; deliveries are compared with the model and judged by the round-trip oracle.",
  note="Trusted: Coq kernel + vm_compute; hand-written model Wire.v; payload (de)serialisation is an oracle pair with deser (ser v) = v; vtproto Envelope encoding is exercised by the harness, not modelled; no axioms.",
  tech="Rocq/Coq proof of encode/decode round trip (induction over the batch with table-extension lemmas) + differential execution of the real writer/reader", ref="DESIGN.md 6 (C15)"),
 "C16": dict(
  text="Coq theorems C16_reader_total (for every list of envelopes — tables of any length, indices any Z — the reader model, in which an unchecked index would yield Panic, never panics), C16_deliveries_addressed (every delivery is named by its message's own in-range indices), C16_first_bad_ends_stream, C16_stream_ends_at_first_error. Tie: crafted envelopes through the real streamReader.Receive; outcome (ok/error/panic) and deliveries compared with the model.",
  note="Trusted as C15; the generated protobuf decoder is modelled as 'any envelope or an error' (the byte-mutation support family is not built); dRPC transport not modelled.",
  tech="Rocq/Coq totality proof of the reader over arbitrary envelopes + differential execution on crafted envelopes", ref="DESIGN.md 6 (C16)"),
 "C18": dict(
  text="Coq theorem C18_view_follows_snapshots: for every history of membership snapshots (each containing the observing node) the agent model's view has exactly the snapshot's ids after each step, the step's events are one Join per new id and one Leave per dropped id and nothing else, and has_kind k iff some member of the view lists k; plus independence from Go's map iteration order. Tie: a real cluster.Cluster with a do-nothing provider receives generated snapshot histories; Members(), events and HasKind are compared with the model after each snapshot.",
  note="Trusted: Coq kernel + vm_compute; hand-written model Agent.v (std++ gmap); Go map iteration order replaced by a canonical one (proved irrelevant); the self-membership hypothesis is needed and shown necessary (C18_self_membership_needed); a member that stays under its id keeps its old Member value (witness lemma).",
  tech="Rocq/Coq invariant over snapshot histories (std++ finite maps) + differential execution of the real agent", ref="DESIGN.md 6 (C18)"),
 "C20": dict(
  text="Coq theorems C20_handshake, C20_members, C20_leave_removes_exactly_that_member, C20_leave_unknown_is_noop, C20_no_panic, C20_member_list_is_spec for the provider model over every history of handshakes, member lists and unreachable reports. Tie: the real SelfManaged receiver with mDNS discovery kept out by a hook, a recording agent stub and an in-memory Remoter; member list and outputs compared after every message.",
  note="Trusted: Coq kernel + vm_compute; hand-written model Provider.v; the hook re-implements the Started/Stopped handling minus discovery (stated in the trusted base); hosts pairwise distinct for the 'exactly that member' clause (the other case is characterised by a lemma); mDNS and the ping timer are out of scope.",
  tech="Rocq/Coq state-machine proofs over message histories + differential execution of the real provider", ref="DESIGN.md 6 (C20)"),
})

PROC_NOTE = ("Trusted: Coq kernel + vm_compute; Proc.v is a hand-written statement-level model of actor/process.go (Invoke/Start/tryRestart/"
             "cleanup/flush), the self-directed parts of engine.go and the single-worker run loop, tied to the code by differential execution "
             "of ~1000 generated scripted scenarios per run through the public API (delivery stream, event stream, pill outcomes, sends, "
             "registration compared), plus runs of the real engine under the deterministic scheduler and with real goroutines judged by the "
             "theorems' predicates; user code is a script (function of incarnation and message); theorems that need it carry the explicit premise "
             "that the Stopped handler itself does not panic (shown necessary by a witness) and that fuel was not exhausted; no axioms.")
CLAIMED["C14"]["text"] += (" Concurrent part: Coq theorem C14_linearizable over an interleaving model of the mutex-protected ring (any number of threads, programs, "
  "schedules): results are those of the list queue at linearization points lying between call and return; tied by exhaustive schedule enumeration of "
  "the real ringbuffer.go under the deterministic scheduler (mutex and atomics shimmed), each history checked linearizable and replayed in the model.")
CLAIMED.update({
 "C04": dict(
  text="Coq theorems C04_lifecycle_word (the delivery stream of every run of the process model is accepted by the lifecycle automaton: per incarnation Initialized, Started, user messages, at most one Stopped, nothing after it, incarnations never interleave), C04_nothing_after_unregister, C04_spawn_returns_after_started, over all scripts, budgets, batches and external operation histories; with C03_start_picks_up_backlog for messages retained before the inbox opens. Tie: scripted scenarios on the real engine compared with the model; sends racing a held-open Started handler; the real engine under the deterministic scheduler.",
  note=PROC_NOTE, tech="Rocq/Coq trace-automaton invariants over a fuel-recursive model of process.go + differential execution of scripted scenarios", ref="DESIGN.md 0, 6 (C04)"),
 "C05": dict(
  text="Coq theorems C05_contained (no panic leaves the actor), C05_panic_then_stopped, C05_restart_shape (Stopped to the failed incarnation, Restarted with counters 1,2,3.., fresh Producer, Initialized), C05_delivered_in_send_order_exactly_once (delivered = prefix of accepted, by position: the backlog behind a failing message goes to the next incarnation in order, once, ahead of later sends; the failing message is not redelivered) and C05_no_silent_loss (sends = delivered + dead-lettered, as a permutation). Tie: as C04, plus real-goroutine runs with senders active during the restart delay.",
  note=PROC_NOTE, tech="Rocq/Coq conservation laws and restart-shape lemmas by mutual induction on big-step derivations + differential execution", ref="DESIGN.md 0, 6 (C05)"),
 "C06": dict(
  text="Coq theorems C06_restarts_bounded (at most MaxRestarts Restarted events, counters consecutive, no premise) and C06_exceeding_stops_cleanly (after MaxRestartsExceeded: inbox stopped, Stopped delivered, unregistered, Stopped event, restart buffer discarded, nothing escapes, nothing delivered afterwards), C06_later_sends_dead_letter. Tie: scripted scenarios with budgets 0-3 and the exhausting panic in first batch, replay, Initialized, Started.",
  note=PROC_NOTE, tech="Rocq/Coq counting invariant + trace-shape theorem + differential execution", ref="DESIGN.md 0, 6 (C06)"),
 "C07": dict(
  text="Coq theorems C07_every_pill_cancelled_exactly_once (every Stop/Poison context created in a run - pills met in a batch, behind another pill, left in the ring, re-buffered after a crash while draining, held in the restart buffer, for an already stopped actor - is cancelled exactly once), C07_cancel_only_after_stopped_and_unregistered, C07_graceful_pill_drains_first, C07_pills_invisible. Tie: scripted scenarios with one or several pills at every batch position, with and without panics; per pill the harness records done / done-before-Stopped / registered-at-done. The proof attempt itself exposed two pill-loss defects (D14, D15), since repaired.",
  note=PROC_NOTE + " The race between a poisoner's lookup-push-recheck and the target's cleanup is modelled and proved in TreeConc (C08), not here.", tech="Rocq/Coq per-pill counting invariant over big-step derivations + differential execution", ref="DESIGN.md 0, 6 (C07)"),
 "C13": dict(
  text="Coq theorem C13_every_delivery_through_chain: every Receive in every run of the process model is reached through the configured middleware chain (no premise). Tie: the harness installs 0-3 logging middlewares and records, per delivery on every path (spawn, user message, stop, poison, crash, restart, budget exceeded), the chain actually traversed and the Context's message and sender.",
  note=PROC_NOTE, tech="Rocq/Coq Forall-over-trace invariant + differential execution with logging middlewares", ref="DESIGN.md 0, 6 (C13)"),
 "C08": dict(
  text="Coq theorems C08_children_first (sequential: any tree, nested induction: every descendant's Stopped, unregistration and parent-map removal precede the ancestor's Stopped and signal), C08_children_listing / C08_parent, and for the interleaving model of cleanup with third-party poisons and crashes: C08_children_first_conc, C08_signal_after_subtree_conc, C08_no_hang (a measure decreases on every step; terminal states have every pill cancelled). Tie: real-engine trees (depth<=3/4, fan-out<=3/4) with global stamps, gated Stopped handlers holding race windows open, Children()/Parent() probes.",
  note="Trusted: Coq kernel + vm_compute; Tree.v/TreeConc.v hand-written (queues hold pills only; Children() one atomic snapshot); tie by differential execution of generated tree scenarios; gates make the third-party windows deterministic; no axioms.",
  tech="Rocq/Coq nested induction over rose trees + inductive invariant and termination measure for the concurrent cleanup + gated real-engine scenarios", ref="DESIGN.md 0, 6 (C08)"),
 "C09": dict(
  text="Coq theorems C09_send_total, C09_dead_letter_exact, C09_remote_missing_exact (exactly one event with the original target, message and sender, delivered once to every live subscriber) and C09_finitely_many_events (the event-stream work queue terminates for every population of live and stopped subscribers, with an explicit bound). Tie: real-engine send scenarios over four target classes x subscriber populations with a divergence guard.",
  note="Trusted: Coq kernel + vm_compute; Events.v hand-written model of engine.send/SendLocal/event_stream.go (repaired: D5, D6); the event stream's own PID is never a subscriber; subscribers behind a configured remote are left to C17; no axioms.",
  tech="Rocq/Coq work-queue termination measure + exactness lemmas + differential execution", ref="DESIGN.md 0, 6 (C09)"),
 "C12": dict(
  text="Coq theorem C12_once_between_sub_and_unsub: for every history of Subscribe/Unsubscribe/broadcast in the event stream's serialisation order and every PID value, the events delivered to it are exactly those between a subscription and the next unsubscription by address and id, once, in order; C12_sub_idempotent, C12_unsub_by_value, C12_broadcast_order. Tie: histories over equal PIDs held in distinct objects and 1-4 concurrent broadcasters on the real engine.",
  note="Trusted as C09. The clause 'lifecycle events are published for every occurrence' is covered by the process-layer checks (C04-C07 compare the event stream).",
  tech="Rocq/Coq induction over subscription histories + differential execution", ref="DESIGN.md 0, 6 (C12)"),
})

CLAIMED.update({
 "C10": dict(
  text="Coq theorems over an interleaving model of Registry.add/get/Remove at lock granularity (any number of concurrent spawners, stoppers and lookups): C10_unique_live (at most one live process per id, and it is the registry entry), C10_getpid_iff_registered, C10_one_winner (of k adds of one id exactly one runs Start, the others run nothing and publish ActorDuplicateIdEvent once), C10_respawn_after_remove_concurrent; and over the sequential machine: C10_duplicate_is_noop (queues, children maps, Producer counts untouched), C10_respawn_after_stop. Tie: the real registry.go under the deterministic scheduler (all schedules of 2-3 concurrent adds with a remover and a getter, replayed in the model) and spawn/send/stop/respawn/duplicate histories on the real engine.",
  note="Trusted: Coq kernel + vm_compute; Registry.v hand-written; RWMutex modelled as atomic sections (shimmed in the scheduled build); premise: Remove is called only by the registered process after it handled Stopped (what process.cleanup does); the oracle of the respawn family is tied by correspondence only; SpawnChild's adoption of an incumbent is exhibited by a lemma; no axioms.",
  tech="Rocq/Coq inductive invariants over a lock-granular interleaving model + exhaustive schedule enumeration of the real registry.go", ref="DESIGN.md 0, 6 (C10)"),
 "C11": dict(
  text="Coq theorems over a transition system with a logical clock: C11_correlated (with pairwise distinct response ids the value Result() returns for a request was sent in reply to that request), C11_error_only_after_deadline, C11_unregistered_after_result (both branches), C11_late_reply_dead_letters, C11_at_most_one_result, C11_respond_never_blocks (repaired mailbox), with C11_distinct_ids_needed showing the premise is necessary. Tie: 1-32 concurrent requesters against responders replying 0-3 times with delays on either side of the timeout, on the real engine; wall clock enters only as bounds.",
  note="Trusted: Coq kernel + vm_compute; Response.v hand-written; the 31-bit random response ids are an oracle stream and the theorems assume they are pairwise distinct (a collision found offline is replayed in the thorough tier as information, not a verdict); context.WithTimeout modelled as a logical deadline; no axioms.",
  tech="Rocq/Coq invariants over a timed transition system + differential execution with concurrent requesters", ref="DESIGN.md 0, 6 (C11)"),
 "C19": dict(
  text="Coq theorems over a model of n agents with per-node registries and a network delivering each operation's notifications in any order: C19_activate_refuses_known_or_unhostable, C19_activate_spawns_one_on_selected, C19_views_agree_after_delivery (every member resolves kind/id to the same PID and lists it under its kind; the actor is registered exactly where the view places it), C19_joiner_learns_all, C19_deactivate_removes_everywhere_and_stops, C19_leave_purges_hosted, C19_quiescent_history_refines_spec, for every quiescent history, member count, kind assignment, select choice and delivery order; C19_premises_needed gives a witness for each premise. Tie: 1-4 real clusters in one process over an in-memory Remoter with a protobuf round trip, snapshots injected, every node queried after every operation.",
  note="Trusted: Coq kernel + vm_compute; ClusterNet.v hand-written on top of Agent.v; premises: hosts pairwise distinct, each snapshot adds or removes one node, cluster-Spawn uses an unknown id, kind names without '/'; Go map order replaced by a canonical one; select is a scripted index; request timeouts are generous wall-clock bounds; no axioms.",
  tech="Rocq/Coq refinement of a one-map specification for all delivery orders + differential execution of multi-node histories", ref="DESIGN.md 0, 6 (C19)"),
})

CLAIMED.update({
 "C17": dict(
  text="Coq theorems over models of the remote layer (router, per-address writers with their life cycle, registry of writer ids, link oracle, built on Wire.v): C17_up_exactly_once_in_order (while the connection stays up every message handed to Remote.Send is delivered exactly once with its sender, in send order per target, for all interleavings and batch formations), C17_unreachable_reported (failed dials: event published, every message handed to that attempt surfaces as a dead letter, no writer stays registered), C17_fresh_attempt_after_unreachable, C17_start_stop_idempotent / C17_stopped_never_listens, and on an interleaving model of Shutdown against the router: C17_no_blackhole (repaired order, all schedules) with C17_blackhole_pinned_refuted. Tie: real engines over loopback TCP (concurrent senders and targets, request/response, peer absent then present, Stop/Start), and stream_router/stream_writer under the deterministic scheduler with a fake dialer, whose terminal observations must lie in the set the Coq enumeration of the model produces.",
  note="Trusted: Coq kernel + vm_compute; Remote.v hand-written; dRPC/TCP modelled as a reliable FIFO link while up; dial outcomes and connection drops are a link oracle; TLS and the 10-minute idle deadline are out of scope; the 'down' oracle is validated by correspondence only; messages queued in a writer whose established connection is lost are dropped silently by the code (C17_connection_loss_drops_silently exhibits it; the property's dead-letter clause is read as covering failed connection attempts); no axioms.",
  tech="Rocq/Coq composition proof (router/writer FIFO + wire round trip + link) and token invariant for the shutdown race + loopback-TCP scenarios + scheduled exploration of the real router/writer", ref="DESIGN.md 0, 6 (C17)"),
})

ACTOR_TEXT = (" Engine level, all schedules: Coq theorems over the product model Actor.v (inbox x process; threads = spawner, senders, poisoners, inbox workers; "
  "one step = one scheduler yield point) for every script, number of senders/messages/poisoners and every schedule: %s. Tie: every kept execution of the whole "
  "engine under the deterministic scheduler (walks + PCT) is restricted to the operations on the target actor and replayed lock-step in the model (part actor_replay).")
CLAIMED["C02"]["text"] += ACTOR_TEXT % "C02_at_most_one_thread_runs_the_actor, C02_no_two_receives_overlap (no two Receive regions of one actor overlap, lifecycle deliveries on the spawning goroutine included)"
CLAIMED["C04"]["text"] += ACTOR_TEXT % "C04_lifecycle_word_all_schedules" + " Part engine_stop_race: Stop/Poison racing restarts and active senders on real goroutines."
CLAIMED["C07"]["text"] += ACTOR_TEXT % "C07_cancel_after_stopped_all_schedules (every cancellation in the log is preceded by the registry removal, itself preceded by the Stopped of cleanup and followed by no delivery)"
CLAIMED["C02"]["tech"] += " + product model of inbox and process under all schedules with lock-step replay of whole-engine executions"
CLAIMED["C04"]["tech"] += " + product model of inbox and process under all schedules with lock-step replay of whole-engine executions"
CLAIMED["C07"]["tech"] += " + product model of inbox and process under all schedules with lock-step replay of whole-engine executions"
CLAIMED["C14"]["text"] += (" Second tie: tools/ringtrans translates the current ringbuffer.go into terms of a small deep embedding (coq/GoMini.v) on every run and "
  "coq/RingSrcProofs.v is re-checked against them (C14_src_refines_fifo: every operation sequence on the code as translated now returns what the list queue returns); "
  "when the source leaves the translated fragment the tie is reported as unavailable in the evidence and the verdict rests on the differential execution.")
CLAIMED["C14"]["tech"] += " + model regenerated from the source by a translator and proved equivalent"
CLAIMED["C14"]["note"] += " Translation tie: translator tools/ringtrans and the GoMini semantics are trusted when its status is 'proved'."
CLAIMED["C10"]["text"] += (" Second tie: tools/regtrans translates the methods of *Registry in the current actor/registry.go into terms of a small deep embedding "
  "(coq/RegSrcSem.v: interleaving semantics at lock granularity in which an access to the map without the mutex, a visible operation inside a critical section or a mutex "
  "still held at the end of a step is stuck, and the label of a critical section is derived from its reads/writes/deletes) on every run, and coq/RegSrcProofs.v is re-checked "
  "against them: lock-step bisimulation with the model (sim_step, sim_reach, sim_run) and the transferred theorems C10_src_unique_live, C10_src_getpid_iff_registered, "
  "C10_src_one_winner, C10_src_one_winner_at_the_end, C10_src_respawn_after_remove, C10_src_no_thread_blocks; when the source leaves the translated fragment or the proof no longer goes through the tie is reported as "
  "unavailable in the evidence and the verdict rests on the replay of explored schedules.")
CLAIMED["C10"]["tech"] += " + model regenerated from the source by a translator and proved bisimilar"
CLAIMED["C10"]["note"] += " Translation tie: translator tools/regtrans and the LMini semantics (incl. the reduction of a disciplined critical section to one step) are trusted when its status is 'proved'."
CLAIMED["C16"]["text"] += " Part internal_targets also lets several inbound streams hit one fresh stream reader at the same moment (what Remote.Start builds)."
CLAIMED["C19"]["text"] += (" A join that spreads (the agents learn of the joiner one after the other, activations in between): model JoinSpread.v, theorems "
  "C19_join_that_spreads_everyone_learns / C19_join_that_spreads_views / C19_join_that_spreads_no_second_activation for every order and grouping, "
  "joiner activations included (repair D26), replayed by part stagger.")
CLAIMED["C19"]["text"] += " The in-memory Remoter can encode a message after Send has returned, as the real stream writer does (class large_topology_late_joiner and the *_lazy_links classes)."
CLAIMED["C12"]["text"] += (" Last sentence of C12: C12_lifecycle_events_published (the published lifecycle events of every run of the process model are exactly those "
  "the delivery stream calls for; dead letters only after Stopped; per payload delivered + dead-lettered = sent) with C12_oracle_sound, judged on the implementation's "
  "event stream by part lifecycle_events; the duplicate-id event by part duplicate_id_events (C10_duplicate_is_noop, C10_duplicate_child_is_noop).")
CLAIMED["C12"]["note"] = "Trusted as C09 and, for the lifecycle clause, as C04 (process model) and C10 (respawn machine)."


def chk(pid, d):
    return {"property_id": pid, "quick_cmd": "./check run %s --tier quick" % pid,
            "thorough_cmd": "./check run %s --tier thorough" % pid,
            "evidence_file": "/verif/evidence/%s.json" % pid, "replay_cmd_template": "./check replay {path}",
            "engine": "coq-proof+differential",
            "level_claimed": {"category": "proof", "text": d["text"], "design_ref": d["ref"]},
            "level_note": d["note"], "technique": d["tech"]}


try:
    NFIX = str(len([l for l in subprocess.run("git -C /repo log --format=%s c85c093..HEAD", shell=True, capture_output=True, text=True).stdout.splitlines() if l.startswith("fix:")])) + " (git log c85c093..HEAD)"
except Exception:
    NFIX = "Several"
NA_REASON = "check still being built in this round (model, theorems and harness for the remote layer: DESIGN.md section 6, C17); not a claim that the technique cannot apply"
m = {"version": 1, "setup_cmd": "./check setup",
     "hooks": {"guard": "verif",
               "enable": "go build -tags verif -modfile <generated> -overlay <generated> (harness module /verif/harness with replace => /repo; hook files under /verif/tools/hooks and the scheduler shims under /verif/tools/verifshim are overlaid at build time; nothing guarded is committed to /repo)",
               "baseline_off_cmd": "cd /repo && GOFLAGS=-mod=mod go test -vet=off -count=1 -timeout 25m ./...",
               "source_commits": [], "add_only": True},
     "engines": [{"name": "coq-proof+differential", "path": "/verif/check", "serves_properties": sorted(CLAIMED),
                  "kind_free_text": "Coq 8.16.1 development under /verif/coq (models, proofs, Props*.v) + Go harness under /verif/harness built against /repo (plain and scheduler-shimmed builds) + Python driver deciding verdicts"}],
     "checks": [chk(p["id"], CLAIMED[p["id"]]) for p in props if p["id"] in CLAIMED],
     "notes": "All twenty properties are claimed at level proof: Coq theorems about hand-written executable models, tied to the code on every run by differential execution (models evaluated inside Coq by vm_compute) and by the theorems' predicates evaluated on what the implementation did; DESIGN.md section 0 describes the tree as built. " + NFIX + " genuine defects of the pinned code were repaired by unguarded 'fix:' commits in /repo (known_findings.json lists them as fixed; no finding is left open). seeded/ holds the seeded changes delivered by blind sub-agents in five rounds (sixty in round 1, forty in round 4, a few in rounds 2 and 5) with their demonstrations; seeded/caught_by.json and DESIGN.md 0.7, 0.11, 0.13 say which check catches each. Three translation ties (ringbuffer.go, inbox.go, registry.go) regenerate a model from the source on every run and re-prove it equivalent to the hand-written one (information in the evidence, never a verdict). A failing case must reproduce in a fresh harness process before it is reported; a broken proof or correspondence without a failing input is reported with the suffix no-failing-input-found.",
     "not_applicable": [{"property_id": p["id"], "reason": NA_REASON} for p in props if p["id"] not in CLAIMED]}
json.dump(m, open(os.path.join(V, "MANIFEST.json"), "w"), indent=1)
print("MANIFEST: %d claimed, %d not claimed" % (len(m["checks"]), len(m["not_applicable"])))
