#!/bin/sh
# usage: tools/try_patch.sh <patch.diff> <Cxx> [<Cyy> ...]
# applies the patch to a scratch worktree of /repo HEAD, runs the named quick checks against it, cleans up
set -u
P=$(realpath "$1"); shift
WT=/tmp/wt-try-$$
git -C /repo worktree add -q --detach "$WT" HEAD || exit 2
if ! git -C "$WT" apply --3way "$P" 2>/tmp/apply-$$.log; then echo "PATCH DOES NOT APPLY: $(head -3 /tmp/apply-$$.log)"; git -C /repo worktree remove --force "$WT"; exit 3; fi
for c in "$@"; do
  echo "== $c"; (cd /verif && VERIF_REPO="$WT" timeout 1500 ./check run "$c" 2>/dev/null | tail -3)
done
git -C /repo worktree remove --force "$WT"
