#!/bin/sh
# developer loop for the C10 translation tie: tools/regsrc.sh [repo]
# generates RegSrc.v from <repo>/actor/registry.go into .work/regsrc-dev and compiles coq/RegSrcProofs.v there
set -e
V=$(cd "$(dirname "$0")/.." && pwd)
R=${1:-${VERIF_REPO:-/repo}}
D=$V/.work/regsrc-dev
mkdir -p "$D"
(cd "$V/tools/regtrans" && GOFLAGS=-mod=mod GOPROXY=off GOSUMDB=off GOTOOLCHAIN=local go build -o "$D/regtrans" .)
"$D/regtrans" -repo "$R" -o "$D/RegSrc.v"
cp "$V/coq/RegSrcProofs.v" "$D/"
cd "$D"
timeout 600 coqc -Q "$V/coq" HV -Q . HVSrc RegSrc.v
timeout 900 coqc -Q "$V/coq" HV -Q . HVSrc RegSrcProofs.v | grep -c "Closed under the global context"
