#!/usr/bin/env python3
"""usage: tools/sweep_seeds.py <out.json> [-j N] [--extra Cyy,...] <seed-id>...
For each seeded change: scratch worktree of /repo HEAD + ported.diff (if present) or patch.diff,
run the owning property's quick check (and any --extra ones) against it with VERIF_REPO, record
exit code, VIOLATION / REASON lines.  Worktrees are removed as soon as the checks have run."""
import json, os, subprocess, sys, concurrent.futures as cf, re, time

V = os.path.dirname(os.path.dirname(os.path.abspath(__file__)))


def run_seed(sid, extra):
    d = os.path.join(V, "seeded", sid)
    patch = os.path.join(d, "ported.diff")
    if not os.path.exists(patch):
        patch = os.path.join(d, "patch.diff")
    prop = json.load(open(os.path.join(d, "meta.json")))["property"]
    wt = "/tmp/wt-sweep-%s-%d" % (sid, os.getpid())
    res = {"seed": sid, "patch": os.path.relpath(patch, V), "checks": {}}
    if subprocess.call(["git", "-C", "/repo", "worktree", "add", "-q", "--detach", wt, "HEAD"]) != 0:
        res["error"] = "worktree"
        return res
    try:
        a = subprocess.run(["git", "-C", wt, "apply", "--3way", patch], capture_output=True, text=True)
        if a.returncode != 0:
            res["error"] = "does-not-apply: " + a.stderr[:300]
            return res
        for c in [prop] + [e for e in extra if e != prop]:
            t0 = time.time()
            env = dict(os.environ, VERIF_REPO=wt)
            try:
                p = subprocess.run(["./check", "run", c], cwd=V, env=env, capture_output=True, text=True, timeout=2400)
                out, rc = p.stdout, p.returncode
            except subprocess.TimeoutExpired as e:
                out, rc = (e.stdout or b"").decode() if isinstance(e.stdout, bytes) else (e.stdout or ""), "timeout"
            lines = [re.sub(r"replay=\S*/", "replay=", l) for l in out.splitlines() if re.match(r"VIOLATION|REASON|KNOWN-FINDING|NOTE", l)]
            res["checks"][c] = {"rc": rc, "wall_s": round(time.time() - t0, 1), "lines": lines[:12]}
    finally:
        subprocess.call(["git", "-C", "/repo", "worktree", "remove", "--force", wt])
    return res


def main():
    a = sys.argv[1:]
    out = a.pop(0)
    j, extra = 4, []
    while a and a[0].startswith("-"):
        f = a.pop(0)
        if f == "-j":
            j = int(a.pop(0))
        elif f == "--extra":
            extra = a.pop(0).split(",")
    results = json.load(open(out)) if os.path.exists(out) else {}
    with cf.ThreadPoolExecutor(j) as ex:
        for r in ex.map(lambda s: run_seed(s, extra), a):
            results[r["seed"]] = r
            json.dump(results, open(out, "w"), indent=1)
            print(r["seed"], r.get("error") or {c: (v["rc"], v["lines"][:2]) for c, v in r["checks"].items()}, flush=True)


if __name__ == "__main__":
    main()
