#!/bin/sh
# Run a command in a private network namespace so that mDNS traffic of other
# test processes on this machine cannot interfere with the cluster tests.
exec unshare -n sh -c '
ip link set lo up
ip link set lo multicast on
ip link add dummy0 type dummy 2>/dev/null && {
  ip link set dummy0 multicast on
  ip addr add 10.77.0.1/24 dev dummy0
  ip link set dummy0 up
  ip route add 224.0.0.0/4 dev dummy0 2>/dev/null
}
exec "$@"' sh "$@"
